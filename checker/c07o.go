package main

import (
	"go/token"
	"sort"
	"strings"

	"golang.org/x/tools/go/ssa"
)

// C07.o: the caller's request to validate chunk checksums reaches the validation unchanged. The condition under which
// the lexer buffers a chunk and compares its CRC is a test of lexer state (a flag, or a staging buffer being present);
// that state (1) is written only while the lexer is constructed and (2) is computed from LexerOptions.ValidateChunkCRCs
// alone - it is not switched off by another option or by something that happens while lexing.

// valueSources: the non-constant inputs a value is computed from, including the conditions that select among the edges of
// phis (control dependence through the immediate dominator's test).
func valueSources(v ssa.Value, out map[string]bool, seen map[ssa.Value]bool, depth int) {
	if v == nil || seen[v] || depth > 12 {
		return
	}
	seen[v] = true
	switch x := v.(type) {
	case *ssa.Const, *ssa.Alloc, *ssa.MakeInterface, *ssa.MakeSlice, *ssa.MakeMap, *ssa.Function, *ssa.MakeClosure:
		return
	case *ssa.Parameter:
		out["param:"+x.Name()] = true
	case *ssa.Phi:
		for _, e := range x.Edges {
			valueSources(e, out, seen, depth+1)
		}
		if d := x.Block().Idom(); d != nil {
			if iff, ok := d.Instrs[len(d.Instrs)-1].(*ssa.If); ok {
				valueSources(iff.Cond, out, seen, depth+1)
			}
		}
	case *ssa.UnOp:
		if x.Op == token.MUL {
			if tn, f, _, ok := fieldRef(x.X); ok {
				out["field:"+tn+"."+f] = true
				return
			}
			if ia, ok := x.X.(*ssa.IndexAddr); ok {
				valueSources(ia.X, out, seen, depth+1)
				return
			}
			if g, ok := x.X.(*ssa.Global); ok {
				out["global:"+g.Name()] = true
				return
			}
			out["load:"+x.X.Name()] = true
			return
		}
		valueSources(x.X, out, seen, depth+1)
	case *ssa.BinOp:
		valueSources(x.X, out, seen, depth+1)
		valueSources(x.Y, out, seen, depth+1)
	case *ssa.Convert:
		valueSources(x.X, out, seen, depth+1)
	case *ssa.ChangeType:
		valueSources(x.X, out, seen, depth+1)
	case *ssa.Call:
		if b, ok := x.Call.Value.(*ssa.Builtin); ok && (b.Name() == "len" || b.Name() == "cap") {
			valueSources(x.Call.Args[0], out, seen, depth+1)
			return
		}
		out["call:"+trimPkg(staticCalleeName(&x.Call))] = true
	case *ssa.Extract:
		valueSources(x.Tuple, out, seen, depth+1)
	case *ssa.Lookup:
		valueSources(x.X, out, seen, depth+1)
		valueSources(x.Index, out, seen, depth+1)
	case *ssa.Slice:
		valueSources(x.X, out, seen, depth+1)
	case *ssa.TypeAssert:
		valueSources(x.X, out, seen, depth+1)
	default:
		out["value:"+v.Name()] = true
	}
}

func checkValidationSwitch(p *Program, r *Result, rule string, lc *ssa.Function, sumCall *ssa.Call, chain map[*ssa.Function]bool) {
	if lc == nil || sumCall == nil {
		return
	}
	// guard fields: Lexer fields tested by conditions whose true branch dominates the checksum - in the function that
	// computes it, or around the call that leads to it in a caller of the chain
	guards := map[string]bool{}
	starts := []*ssa.BasicBlock{sumCall.Block()}
	for f := range chain {
		for _, ci := range callsIn(f, func(ci ssa.CallInstruction) bool {
			g := ci.Common().StaticCallee()
			return g != nil && chain[g] && g != f
		}) {
			starts = append(starts, ci.Block())
		}
	}
	for _, start := range starts {
		for d := start; d != nil; d = d.Idom() {
			if len(d.Preds) != 1 {
				continue
			}
			pred := d.Preds[0]
			iff, ok := pred.Instrs[len(pred.Instrs)-1].(*ssa.If)
			if !ok || pred.Succs[0] != d {
				continue
			}
			src := map[string]bool{}
			valueSources(iff.Cond, src, map[ssa.Value]bool{}, 0)
			pure := true
			for s := range src {
				if !strings.HasPrefix(s, "field:Lexer.") {
					pure = false
				}
			}
			if pure {
				for s := range src {
					guards[strings.TrimPrefix(s, "field:Lexer.")] = true
				}
			}
		}
	}
	if len(guards) == 0 {
		r.note(rule, funcName(lc), "validation switch", p.pos(sumCall.Pos()), "the checksum is not under a pure test of lexer state (validation unconditional or guarded in a caller): not judged")
		return
	}
	var gs []string
	for g := range guards {
		gs = append(gs, g)
	}
	sort.Strings(gs)
	allowed := func(s string) bool {
		return s == "field:LexerOptions.ValidateChunkCRCs" || s == "param:opts"
	}
	for _, gf := range gs {
		construct := "validation switch Lexer." + gf
		bad := ""
		badPos := ""
		n := 0
		for _, fn := range p.repoFunctions(pkgMcap) {
			for _, st := range fieldStores(fn, "Lexer", gf) {
				n++
				if fn.Name() != "NewLexer" {
					bad = "it is written again in " + funcName(fn) + " after the lexer was constructed, so validation can stop (or start) in the middle of a file"
					badPos = p.pos(st.Pos())
					continue
				}
				src := map[string]bool{}
				valueSources(st.Val, src, map[ssa.Value]bool{}, 0)
				var extra []string
				for s := range src {
					if !allowed(s) {
						extra = append(extra, s)
					}
				}
				sort.Strings(extra)
				if len(extra) > 0 && bad == "" {
					bad = "its value also depends on " + strings.Join(extra, ", ") + ": a caller that asked for chunk CRC validation does not get it under that condition"
					badPos = p.pos(st.Pos())
				}
				if !src["field:LexerOptions.ValidateChunkCRCs"] && bad == "" {
					bad = "its value is not derived from LexerOptions.ValidateChunkCRCs"
					badPos = p.pos(st.Pos())
				}
			}
		}
		switch {
		case n == 0:
			r.violated(rule, "mcap.NewLexer", construct, "", "the lexer state that gates chunk CRC validation is never set from the options")
		case bad != "":
			r.violated(rule, "mcap.NewLexer", construct, badPos, "the state that gates chunk CRC validation must be fixed at construction from the ValidateChunkCRCs option alone; "+bad)
		default:
			r.held(rule, "mcap.NewLexer", construct, "", "set once, at construction, from LexerOptions.ValidateChunkCRCs only")
		}
	}
}
