package main

// mcapvet: static checks of the properties in /verif/properties.jsonl against /repo's current source.
//
//	mcapvet C14 --tier quick|thorough [--repo /repo] [--verif /verif]
//	mcapvet --replay /verif/evidence/replay/C14-1.json
//	mcapvet C14 --control <name>      (internal: run one positive control in its own process)

import (
	"encoding/json"
	"flag"
	"fmt"
	"os"
	"os/exec"
	"runtime/debug"
	"sort"
	"strconv"
	"strings"
	"sync"
	"time"
)

type checkFn func(p *Program, r *Result)

type propDef struct {
	id      string
	needSSA bool
	fn      checkFn
}

var registry = map[string]*propDef{}

func register(id string, needSSA bool, fn checkFn) { registry[id] = &propDef{id, needSSA, fn} }

func main() {
	os.Exit(realMain())
}

func realMain() (code int) {
	fs := flag.NewFlagSet("mcapvet", flag.ContinueOnError)
	tier := fs.String("tier", "quick", "quick|thorough")
	repo := fs.String("repo", "/repo", "repository root")
	verif := fs.String("verif", "/verif", "verif root (evidence, known findings)")
	replay := fs.String("replay", "", "replay file")
	control := fs.String("control", "", "internal: run one positive control")
	listControls := fs.Bool("list-controls", false, "list positive controls of the property")
	corpus := fs.String("corpus", "", "internal: apply the patch in this directory in memory and run the property")
	noCorpus := fs.Bool("no-corpus", false, "thorough tier without the regression corpus")
	goarch := fs.String("goarch", "", "GOARCH for loading")
	var prop string
	args := os.Args[1:]
	if len(args) > 0 && !strings.HasPrefix(args[0], "-") {
		prop, args = args[0], args[1:]
	}
	multiList := ""
	if prop == "multi" && len(args) > 0 {
		multiList, args = args[0], args[1:]
	}
	if err := fs.Parse(args); err != nil {
		return 2
	}
	if prop == "" && fs.NArg() > 0 {
		prop = fs.Arg(0)
	}
	start := time.Now()
	seed := 0
	if s := os.Getenv("VERIF_SEED"); s != "" {
		seed, _ = strconv.Atoi(s)
	}
	if t := os.Getenv("VERIF_TIER"); t != "" && *tier == "quick" && (t == "quick" || t == "thorough") {
		*tier = t
	}

	verifDir = *verif
	if *replay != "" {
		return doReplay(*replay, *repo, *verif)
	}
	if prop == "multi" {
		return runMulti([]string{multiList}, *repo, *verif)
	}
	def := registry[prop]
	if def == nil {
		var ids []string
		for id := range registry {
			ids = append(ids, id)
		}
		sort.Strings(ids)
		fmt.Fprintf(os.Stderr, "usage: mcapvet <property> [--tier quick|thorough]; properties: %s\n", strings.Join(ids, " "))
		return 2
	}
	if *listControls {
		for _, c := range controlsFor(prop) {
			fmt.Println(c.Name)
		}
		return 0
	}
	if *control != "" {
		return runControlChild(def, *control, *repo)
	}
	if *corpus != "" {
		return runCorpusChild(def, *corpus, *repo)
	}

	r := newResult(prop, *tier)
	var p *Program
	var loadErr error
	defer func() {
		if rec := recover(); rec != nil {
			fmt.Printf("UNDECIDED: checker panic: %v\n%s\n", rec, debug.Stack())
			loadErr = fmt.Errorf("checker panic: %v", rec)
			code = r.finish(p, *verif, start, seed, loadErr)
			if code == 0 {
				code = 2
			}
		}
	}()
	p, loadErr = loadProgram(loadOpts{repo: *repo, goarch: *goarch, needSSA: true})
	if loadErr == nil {
		def.fn(p, r)
	}
	if loadErr == nil && *tier == "thorough" {
		thorough(def, p, r, *repo)
		if !*noCorpus {
			runCorpus(def, r, *repo, *verif)
		}
	}
	return r.finish(p, *verif, start, seed, loadErr)
}

// thorough: re-analyse under GOARCH=386 and -tags verif (obligation sets must agree in verdict),
// then run the positive controls, one sub-process each.
func thorough(def *propDef, p *Program, r *Result, repo string) {
	type variant struct{ arch, tags string }
	for _, v := range []variant{{"386", ""}, {"", "verif"}} {
		p2, err := loadProgram(loadOpts{repo: repo, goarch: v.arch, tags: v.tags, needSSA: true})
		name := "GOARCH=" + v.arch + " tags=" + v.tags
		if err != nil {
			r.undecided(def.id+".variants", "", name, "", "variant load failed: "+err.Error())
			continue
		}
		r2 := newResult(def.id, "variant")
		def.fn(p2, r2)
		base := map[string]Status{}
		for _, o := range r.Obls {
			base[o.Key] = o.Status
		}
		nv := 0
		for _, o := range r2.Obls {
			if o.Status == Violated && base[o.Key] != Violated {
				o.Key = o.Key + " [" + name + "]"
				o.Detail = "only under " + name + ": " + o.Detail
				r.Obls = append(r.Obls, o)
				nv++
			}
		}
		r.Extra["variant "+name] = map[string]any{"obligations": len(r2.Obls), "extra_violations": nv}
		p2 = nil
		debug.FreeOSMemory()
	}
	ctrls := controlsFor(def.id)
	if len(ctrls) == 0 {
		return
	}
	self, _ := os.Executable()
	results := make([]ControlResult, len(ctrls))
	sem := make(chan struct{}, 6)
	var wg sync.WaitGroup
	for i, c := range ctrls {
		wg.Add(1)
		go func(i int, c control) {
			defer wg.Done()
			sem <- struct{}{}
			defer func() { <-sem }()
			cmd := exec.Command(self, def.id, "--control", c.Name, "--repo", repo)
			out, err := cmd.CombinedOutput()
			cr := ControlResult{Name: c.Name, Rule: c.Rule}
			last := lastLine(string(out))
			switch {
			case strings.HasPrefix(last, "CONTROL fired"):
				cr.Fired, cr.Status = true, "fired"
			case strings.HasPrefix(last, "CONTROL stale"):
				cr.Status = "stale"
			case strings.HasPrefix(last, "CONTROL silent"):
				cr.Status = "silent"
			default:
				cr.Status = "error"
				if err != nil {
					last += " (" + err.Error() + ")"
				}
			}
			cr.Detail = last
			results[i] = cr
		}(i, c)
	}
	wg.Wait()
	r.Controls = results
}

func lastLine(s string) string {
	lines := strings.Split(strings.TrimSpace(s), "\n")
	return lines[len(lines)-1]
}

func doReplay(path, repo, verif string) int {
	b, err := os.ReadFile(path)
	if err != nil {
		fmt.Fprintln(os.Stderr, err)
		return 2
	}
	var rp struct {
		PropertyID string     `json:"property_id"`
		Obligation Obligation `json:"obligation"`
	}
	if err := json.Unmarshal(b, &rp); err != nil {
		fmt.Fprintln(os.Stderr, err)
		return 2
	}
	def := registry[rp.PropertyID]
	if def == nil {
		fmt.Fprintln(os.Stderr, "unknown property", rp.PropertyID)
		return 2
	}
	p, err := loadProgram(loadOpts{repo: repo, needSSA: true})
	if err != nil {
		fmt.Println("UNDECIDED:", err)
		return 2
	}
	r := newResult(rp.PropertyID, "replay")
	def.fn(p, r)
	for _, o := range r.Obls {
		if o.Key == rp.Obligation.Key {
			fmt.Printf("%s: %s: %s: %s\n", o.Pos, o.Key, o.Status, o.Detail)
			for _, s := range o.Path {
				fmt.Printf("      %s\n", s)
			}
			if o.Status == Violated {
				fmt.Printf("VIOLATION property=%s replay=%s\n", rp.PropertyID, path)
				return 1
			}
			return 0
		}
	}
	fmt.Printf("obligation %q no longer exists on this tree\n", rp.Obligation.Key)
	return 0
}

// runMulti: load once, decide several properties, print one summary line per property (no evidence written).
// Used by the seeded-defect matrix (tools/seed_matrix.py), not by registered checks.
func runMulti(props []string, repo, verif string) int {
	if len(props) == 1 {
		props = strings.Split(props[0], ",")
	}
	p, err := loadProgram(loadOpts{repo: repo, needSSA: true})
	if err != nil {
		fmt.Println("MULTI load error:", strings.ReplaceAll(err.Error(), "\n", " "))
		return 2
	}
	kfs, _ := loadKnownFindings(verif + "/known_findings.txt")
	for _, id := range props {
		def := registry[id]
		if def == nil {
			continue
		}
		func() {
			r := newResult(id, "multi")
			defer func() {
				if rec := recover(); rec != nil {
					fmt.Printf("MULTI %s exit=2 panic=%v\n", id, rec)
				}
			}()
			def.fn(p, r)
			known := map[string]bool{}
			for _, k := range kfs {
				if k.Kind == "finding" && k.Prop == id {
					known[k.Key] = true
				}
			}
			var viol, undec []string
			for _, o := range r.Obls {
				if o.Status == Violated && !known[o.Key] {
					viol = append(viol, o.Key)
				}
				if o.Status == Undecided {
					undec = append(undec, o.Key)
				}
			}
			per := map[string]int{}
			for _, o := range r.Obls {
				if o.Status != Note || o.Located {
					per[o.Rule]++
				}
			}
			for rule, floor := range r.Floors {
				if per[rule] < floor {
					undec = append(undec, fmt.Sprintf("floor %s %d<%d", rule, per[rule], floor))
				}
			}
			exit := 0
			if len(viol) > 0 {
				exit = 1
			} else if len(undec) > 0 {
				exit = 2
			}
			b, _ := json.Marshal(map[string]any{"prop": id, "exit": exit, "violations": viol, "undecided": undec})
			fmt.Println("MULTI " + string(b))
		}()
	}
	return 0
}
