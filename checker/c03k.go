package main

import (
	"go/token"

	"golang.org/x/tools/go/ssa"
)

// Rules that came out of the mutation scan of the index-based iterator (none of these mutants is killed by the suite).

// C04.k / C03.i: an in-place filter (s := f[:0]; for ... { s = append(s, x) }) overwrites the backing array of field f.
// Unless the result is stored back into f, f keeps its old length over a partly overwritten array: entries that were
// dropped are gone, later ones appear twice.
func checkInPlaceFilterStoredBack(p *Program, r *Result, rule string) {
	n := 0
	for _, fn := range iteratorAndQueueMethods(p) {
		if fn.Blocks == nil {
			continue
		}
		for _, in := range instrsOf(fn) {
			s0, ok := in.(*ssa.Slice)
			if !ok || s0.Low != nil || s0.High == nil {
				continue
			}
			if k, ok := s0.High.(*ssa.Const); !ok || k.Value == nil || k.Int64() != 0 {
				continue
			}
			u, ok := s0.X.(*ssa.UnOp)
			if !ok || u.Op != token.MUL {
				continue
			}
			tn, fld, _, ok := fieldRef(u.X)
			if !ok {
				continue
			}
			// the web of values derived from s0 by append and phi
			web := map[ssa.Value]bool{s0: true}
			appended := false
			for changed := true; changed; {
				changed = false
				for _, i2 := range instrsOf(fn) {
					switch x := i2.(type) {
					case *ssa.Phi:
						if !web[x] {
							for _, e := range x.Edges {
								if web[e] {
									web[x] = true
									changed = true
									break
								}
							}
						}
					case *ssa.Call:
						if b, ok := x.Call.Value.(*ssa.Builtin); ok && b.Name() == "append" && len(x.Call.Args) > 0 && web[x.Call.Args[0]] && !web[x] {
							web[x] = true
							appended = true
							changed = true
						}
					}
				}
			}
			if !appended {
				continue // a plain reset (queue = queue[:0]) is not a filter
			}
			n++
			stored := false
			for _, st := range fieldStores(fn, tn, fld) {
				if web[st.Val] {
					stored = true
				}
			}
			construct := "in-place filter of " + tn + "." + fld + " is stored back"
			if stored {
				r.held(rule, funcName(fn), construct, p.pos(s0.Pos()), "the filtered slice is assigned to the field it was taken from")
			} else {
				r.violated(rule, funcName(fn), construct, p.pos(s0.Pos()),
					"the field is filtered in place (entries appended onto its own backing array from position 0) but the result is never stored back: the field keeps its old length over a partly overwritten array, so dropped entries are gone and later ones occur twice")
			}
		}
	}
	if n == 0 {
		r.held(rule, "mcap.indexedMessageIterator", "no in-place filter", "", "no field is filtered onto its own backing array")
	}
}

// C03.k: compaction of the pending-message queue is all or nothing. Moving the unread entries to the front
// (copy(queue[:n], unread)), shortening the queue to n and resetting the cursor to 0 belong together; any one or two of
// them without the rest leaves the cursor pointing at the wrong entries.
func checkCompactionAtomic(p *Program, r *Result, rule string) {
	ro := p.roles()
	lc := p.lookupFunc(pkgMcap, "indexedMessageIterator.loadChunk")
	if lc == nil {
		r.undecided(rule, "mcap.indexedMessageIterator.loadChunk", "anchor", "", "not found")
		return
	}
	n := 0
	for _, fn := range regionOf(p, lc, 3) {
		type parts struct {
			copyIn, shorten, reset, clear bool
			pos                        ssa.Instruction
		}
		byBlock := map[*ssa.BasicBlock]*parts{}
		get := func(b *ssa.BasicBlock, in ssa.Instruction) *parts {
			if byBlock[b] == nil {
				byBlock[b] = &parts{pos: in}
			}
			return byBlock[b]
		}
		for _, in := range instrsOf(fn) {
			switch x := in.(type) {
			case *ssa.Store:
				tn, f, _, ok := fieldRef(x.Addr)
				if !ok {
					continue
				}
				if tn == ro.cType && f == ro.cField {
					if k, ok := x.Val.(*ssa.Const); ok && k.Value != nil && k.Int64() == 0 {
						get(x.Block(), in).reset = true
					}
				}
				if tn == ro.qType && f == ro.qField {
					// append(queue[:0], unread...): moves the unread entries to the front and shortens in one
					if ap, ok := x.Val.(*ssa.Call); ok {
						if b, ok := ap.Call.Value.(*ssa.Builtin); ok && b.Name() == "append" && len(ap.Call.Args) == 2 {
							if sl, ok := ap.Call.Args[0].(*ssa.Slice); ok && ro.isQueueLoad(sl.X) && sl.Low == nil && sl.High != nil {
								if k, ok := sl.High.(*ssa.Const); ok && k.Value != nil && k.Int64() == 0 {
									if s2, ok := ap.Call.Args[1].(*ssa.Slice); ok && ro.isQueueLoad(s2.X) {
										pt := get(x.Block(), in)
										pt.copyIn, pt.shorten = true, true
									}
								}
							}
						}
					}
					if sl, ok := x.Val.(*ssa.Slice); ok && ro.isQueueLoad(sl.X) && sl.Low == nil && sl.High != nil {
						if k, ok := sl.High.(*ssa.Const); ok && k.Value != nil && k.Int64() == 0 {
							get(x.Block(), in).clear = true
						} else {
							get(x.Block(), in).shorten = true
						}
					}
				}
			case *ssa.Call:
				if b, ok := x.Call.Value.(*ssa.Builtin); ok && b.Name() == "copy" && len(x.Call.Args) == 2 {
					if sl, ok := x.Call.Args[0].(*ssa.Slice); ok && ro.isQueueLoad(sl.X) {
						get(x.Block(), in).copyIn = true
					} else if ro.isQueueLoad(x.Call.Args[0]) {
						get(x.Block(), in).copyIn = true
					}
				}
			}
		}
		for _, pt := range byBlock {
			if !(pt.copyIn || pt.shorten) && !(pt.reset && !pt.clear) {
				continue // a plain reset of an empty queue (clear + reset) or nothing of interest
			}
			if pt.reset && pt.clear && !pt.copyIn && !pt.shorten {
				continue
			}
			n++
			construct := "queue compaction moves, shortens and resets together"
			if n > 1 {
				construct += " #" + itoa(n-1)
			}
			if pt.copyIn && pt.shorten && pt.reset {
				r.held(rule, funcName(fn), construct, p.pos(pt.pos.Pos()), "copy to the front, shorten, cursor = 0 in one block")
			} else {
				missing := ""
				if !pt.copyIn {
					missing += " the copy of the unread entries to the front;"
				}
				if !pt.shorten {
					missing += " shortening the queue;"
				}
				if !pt.reset {
					missing += " resetting the cursor;"
				}
				r.violated(rule, funcName(fn), construct, p.pos(pt.pos.Pos()),
					"the compaction of the pending-message queue is incomplete (missing:"+missing+") - the cursor then designates other entries than the unread ones, and messages are lost or yielded twice")
			}
		}
	}
	if n == 0 {
		r.note(rule, funcName(lc), "queue compaction", "", "the queue is never compacted: not judged")
	}
}

// C03.s: whether the pending queue has to be sorted after a chunk was indexed is decided by a running maximum of the log
// times seen in the chunk: a message below the maximum must set the needs-sorting flag, any other message must become
// the new maximum. If either half is missing, a chunk whose messages are out of order is queued unsorted whenever the
// queue was empty before.
func checkSortingFlag(p *Program, r *Result, rule string) {
	lc := p.lookupFunc(pkgMcap, "indexedMessageIterator.loadChunk")
	if lc == nil {
		return
	}
	n := 0
	for _, fn := range regionOf(p, lc, 3) {
		for _, in := range instrsOf(fn) {
			cmp, ok := in.(*ssa.BinOp)
			if !ok || (cmp.Op != token.LSS && cmp.Op != token.GTR) {
				continue
			}
			var maxPhi *ssa.Phi
			var tval ssa.Value
			lx, ly := stripConv(cmp.X), stripConv(cmp.Y)
			isLT := func(v ssa.Value) bool {
				if loadOfField(v, "Message", "LogTime") {
					return true
				}
				if f, ok := v.(*ssa.Field); ok {
					_, name, _, _ := fieldRef(f)
					return name == "LogTime"
				}
				return false
			}
			below := false // the true branch means "t below the running maximum"
			if ph, ok := ly.(*ssa.Phi); ok && isLT(lx) {
				maxPhi, tval, below = ph, lx, cmp.Op == token.LSS
			} else if ph, ok := lx.(*ssa.Phi); ok && isLT(ly) {
				maxPhi, tval, below = ph, ly, cmp.Op == token.GTR
			}
			// degenerate: the log time is compared with a constant - the "running maximum" never moves
			if maxPhi == nil {
				for _, pair := range [][2]ssa.Value{{lx, ly}, {ly, lx}} {
					if k, ok := pair[1].(*ssa.Const); ok && isLT(pair[0]) && k.Value != nil && fn == lc {
						n++
						r.violated(rule, funcName(fn), "running maximum decides whether the new entries need sorting", p.pos(cmp.Pos()),
							"the log time is compared with the constant "+k.Value.String()+": the running maximum of the chunk's log times is never updated, so out-of-order messages inside a chunk are not noticed and the chunk is queued unsorted when the queue was empty before")
					}
				}
				continue
			}
			if !below {
				continue
			}
			var iff *ssa.If
			for _, ref := range *cmp.Referrers() {
				if i2, ok := ref.(*ssa.If); ok {
					iff = i2
				}
			}
			if iff == nil {
				continue
			}
			n++
			yes, no := iff.Block().Succs[0], iff.Block().Succs[1]
			fromSide := func(pr, side *ssa.BasicBlock) bool { return pr == side || side.Dominates(pr) }
			// (1) the "not below" side makes t the new maximum
			updated := false
			for i, e := range maxPhi.Edges {
				pr := maxPhi.Block().Preds[i]
				_ = pr
				// the value reaching the loop head from the "no" side: through intermediate phis
				// follow the phis that carry the variable round the loop; somewhere an edge that comes from the "no" side
				// must bring the log time itself
				var reaches func(v ssa.Value, depth int) bool
				reaches = func(v ssa.Value, depth int) bool {
					if depth > 6 {
						return false
					}
					ph, ok := v.(*ssa.Phi)
					if !ok || ph == maxPhi {
						return false
					}
					for j, e2 := range ph.Edges {
						if fromSide(ph.Block().Preds[j], no) && (stripConv(e2) == tval || isLT(stripConv(e2))) {
							return true
						}
						if reaches(e2, depth+1) {
							return true
						}
					}
					return false
				}
				if reaches(e, 0) {
					updated = true
				}
			}
			// (2) the "below" side sets a boolean that some later branch tests: a bool phi with a constant-true edge
			// from that side
			flagged := false
			for _, i2 := range instrsOf(fn) {
				ph, ok := i2.(*ssa.Phi)
				if !ok || ph.Type().String() != "bool" {
					continue
				}
				for j, e := range ph.Edges {
					// the flag may be "needs sorting = true" or "in order = false": a boolean constant that only this side brings
					if k, ok := e.(*ssa.Const); ok && k.Value != nil && fromSide(ph.Block().Preds[j], yes) && !fromSide(ph.Block().Preds[j], no) {
						flagged = true
					}
				}
			}
			construct := "running maximum decides whether the new entries need sorting"
			if n > 1 {
				construct += " #" + itoa(n-1)
			}
			switch {
			case updated && flagged:
				r.held(rule, funcName(fn), construct, p.pos(cmp.Pos()), "a message below the maximum sets the flag, any other becomes the maximum")
			case !flagged:
				r.violated(rule, funcName(fn), construct, p.pos(cmp.Pos()), "a message whose log time lies below the running maximum does not set the needs-sorting flag; a chunk with out-of-order messages is then queued unsorted when the queue was empty before")
			default:
				r.violated(rule, funcName(fn), construct, p.pos(cmp.Pos()), "a message that is not below the running maximum does not become the new maximum; later out-of-order messages are then not noticed and the chunk is queued unsorted")
			}
		}
	}
	if n == 0 {
		r.note(rule, funcName(lc), "needs-sorting decision", "", "no running-maximum comparison found (the queue may always be sorted): not judged")
	}
}
