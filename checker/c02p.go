package main

import (
	"go/ast"
	"golang.org/x/tools/go/ssa"
)

// C02.p: Reader.Info reads the summary through the Reader's shared stream; the sequential fallback of Messages (and any
// sequential read in progress) continues from wherever that stream stands. Info must therefore leave the position as it
// found it: the position is saved (Seek(0, io.SeekCurrent)) before the call that repositions the stream, and on every
// path from that call to a return the stream is sought back to the saved position.
func checkInfoRestoresPosition(p *Program, r *Result, rule string) {
	fn := p.lookupFunc(pkgMcap, "Reader.Info")
	if fn == nil {
		r.undecided(rule, "mcap.Reader.Info", "anchor", "", "not found")
		return
	}
	checkRestoresPosition(p, r, rule, fn, 2)
}

// checkRestoresPosition judges fn; a call of an unexported Reader method that itself saves and restores the position
// around everything in it that seeks (judged the same way, depth levels down) leaves the stream where it was.
func checkRestoresPosition(p *Program, r *Result, rule string, fn *ssa.Function, depth int) {
	// functions that (transitively) seek the shared stream
	seeks := map[*ssa.Function]bool{}
	fns := p.repoFunctions(pkgMcap)
	for _, f := range fns {
		for _, ci := range callsIn(f, func(ssa.CallInstruction) bool { return true }) {
			if absoluteSeek(ci) {
				seeks[f] = true
			}
		}
	}
	for changed := true; changed; {
		changed = false
		for _, f := range fns {
			if seeks[f] {
				continue
			}
			for _, ci := range callsIn(f, func(ssa.CallInstruction) bool { return true }) {
				if g := ci.Common().StaticCallee(); g != nil && seeks[g] {
					seeks[f] = true
					changed = true
					break
				}
			}
		}
	}
	n := 0
	for _, ci := range callsIn(fn, func(ci ssa.CallInstruction) bool {
		g := ci.Common().StaticCallee()
		return g != nil && seeks[g]
	}) {
		if g := ci.Common().StaticCallee(); g != nil && depth > 0 && g.Signature.Recv() != nil && !ast.IsExported(g.Name()) && g.Blocks != nil {
			sub := newResult(r.Prop, "sub")
			checkRestoresPosition(p, sub, rule, g, depth-1)
			good, bad := 0, 0
			for _, o := range sub.Obls {
				switch o.Status {
				case Held:
					good++
				case Violated, Undecided:
					bad++
				}
			}
			if good > 0 && bad == 0 {
				n++
				r.held(rule, funcName(fn), "stream position around "+calleeRepoName(ci), p.pos(ci.Pos()), "the callee saves the position before and restores it on every path after what it reads")
				continue
			}
		}
		n++
		construct := "stream position around " + calleeRepoName(ci)
		// a saved position that dominates the call
		var saved ssa.Value
		for _, s0 := range callsIn(fn, func(c ssa.CallInstruction) bool {
			cc := c.Common()
			if !cc.IsInvoke() || cc.Method.Name() != "Seek" || len(cc.Args) != 2 || !isSharedStream(cc.Value) {
				return false
			}
			k, ok := cc.Args[1].(*ssa.Const)
			return ok && k.Value != nil && k.Value.String() == "1"
		}) {
			if instrDominates(s0, ci) {
				for _, ref := range *s0.Value().Referrers() {
					if ex, ok := ref.(*ssa.Extract); ok && ex.Index == 0 {
						saved = ex
					}
				}
			}
		}
		if saved == nil {
			r.violated(rule, funcName(fn), construct, p.pos(ci.Pos()),
				"Info moves the Reader's shared stream (to the footer and the summary) without saving where it stood; a Messages call that falls back to the sequential scan afterwards starts behind the data section and returns no messages, without an error")
			continue
		}
		restored := allPathsHitBefore(ci.Block(), nil, fn, func(in ssa.Instruction) bool {
			c, ok := in.(ssa.CallInstruction)
			if !ok || !absoluteSeek(c) || in == ssa.Instruction(ci) {
				return false
			}
			return stripConv(c.Common().Args[0]) == saved && (in.Block() != ci.Block() || blockIndexOf(in) > blockIndexOf(ci))
		})
		if restored {
			r.held(rule, funcName(fn), construct, p.pos(ci.Pos()), "position saved before and restored on every path after")
		} else {
			r.violated(rule, funcName(fn), construct, p.pos(ci.Pos()), "the saved position is not restored on every path after the summary was read")
		}
	}
	if n == 0 {
		r.held(rule, funcName(fn), "stream position", p.pos(fn.Pos()), "Info does not reposition the shared stream")
	}
}
