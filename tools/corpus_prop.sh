#!/bin/bash
# usage: corpus_prop.sh <Cxx> [jobs]   run one property's rules on every refactoring under benign/ (in-memory overlay); print the ones not clean
set -u
p=$1; j=${2:-4}
ls -d /verif/benign/C*/ | xargs -P "$j" -I{} sh -c 'o=$(/verif/bin/mcapvet '"$p"' --corpus {} --repo /repo 2>&1 | tail -n 1); case "$o" in "CORPUS clean"*) ;; *) echo "$(basename {}) $o";; esac'
echo "corpus_prop $p done"
