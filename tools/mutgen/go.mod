module verif/mutgen

go 1.22
