// mutgen: enumerate and apply single-point syntactic mutations of one Go source file (development aid for finding
// what the static checks miss; not part of any registered check).
//
//	mutgen list  file.go          -> one line per mutation: index, line, kind, description
//	mutgen apply file.go <index>  -> mutated source on stdout
package main

import (
	"bytes"
	"fmt"
	"go/ast"
	"go/format"
	"go/parser"
	"go/token"
	"os"
	"strconv"
)

type mutation struct {
	line  int
	kind  string
	desc  string
	apply func()
}

func main() {
	if len(os.Args) < 3 {
		fmt.Fprintln(os.Stderr, "usage: mutgen list|apply file [index]")
		os.Exit(2)
	}
	fset := token.NewFileSet()
	f, err := parser.ParseFile(fset, os.Args[2], nil, parser.ParseComments)
	if err != nil {
		fmt.Fprintln(os.Stderr, err)
		os.Exit(2)
	}
	var muts []mutation
	add := func(pos token.Pos, kind, desc string, apply func()) {
		muts = append(muts, mutation{fset.Position(pos).Line, kind, desc, apply})
	}
	flip := map[token.Token][]token.Token{
		token.LSS: {token.LEQ}, token.LEQ: {token.LSS}, token.GTR: {token.GEQ}, token.GEQ: {token.GTR},
		token.EQL: {token.NEQ}, token.NEQ: {token.EQL}, token.LAND: {token.LOR}, token.LOR: {token.LAND},
		token.ADD: {token.SUB}, token.SUB: {token.ADD},
	}
	var visitBlock func(list *[]ast.Stmt)
	visitBlock = func(list *[]ast.Stmt) {
		for i := range *list {
			i := i
			st := (*list)[i]
			del := func(kind string) {
				add(st.Pos(), kind, "delete statement", func() {
					*list = append(append([]ast.Stmt{}, (*list)[:i]...), (*list)[i+1:]...)
				})
			}
			switch x := st.(type) {
			case *ast.ExprStmt:
				del("del-call")
			case *ast.AssignStmt:
				if x.Tok != token.DEFINE {
					del("del-assign")
				}
			case *ast.IncDecStmt:
				del("del-incdec")
			case *ast.IfStmt:
				if x.Else == nil {
					del("del-if")
				}
			case *ast.BranchStmt:
				del("del-branch")
			}
			if i+1 < len(*list) {
				// swap two adjacent simple statements
				a, b := (*list)[i], (*list)[i+1]
				simple := func(s ast.Stmt) bool {
					switch y := s.(type) {
					case *ast.ExprStmt, *ast.IncDecStmt:
						return true
					case *ast.AssignStmt:
						return y.Tok != token.DEFINE
					}
					return false
				}
				if simple(a) && simple(b) {
					add(a.Pos(), "swap", "swap with next statement", func() { (*list)[i], (*list)[i+1] = b, a })
				}
			}
		}
	}
	ast.Inspect(f, func(n ast.Node) bool {
		switch x := n.(type) {
		case *ast.BlockStmt:
			visitBlock(&x.List)
		case *ast.CaseClause:
			visitBlock(&x.Body)
		case *ast.BinaryExpr:
			for _, to := range flip[x.Op] {
				from, to := x.Op, to
				if (from == token.ADD || from == token.SUB) && isStringy(x) {
					continue
				}
				add(x.OpPos, "op", from.String()+" -> "+to.String(), func() { x.Op = to })
			}
		case *ast.BasicLit:
			if x.Kind == token.INT {
				if v, err := strconv.ParseInt(x.Value, 0, 64); err == nil && v >= 0 && v <= 64 {
					old := x.Value
					add(x.Pos(), "const", old+" -> "+strconv.FormatInt(v+1, 10), func() { x.Value = strconv.FormatInt(v+1, 10) })
				}
			}
		case *ast.UnaryExpr:
			if x.Op == token.NOT {
				// handled by removing the negation: replace !e by e is not expressible in place without parent; skip
			}
		case *ast.Ident:
			if x.Name == "true" || x.Name == "false" {
				old := x.Name
				nw := map[string]string{"true": "false", "false": "true"}[old]
				add(x.Pos(), "bool", old+" -> "+nw, func() { x.Name = nw })
			}
		}
		return true
	})
	switch os.Args[1] {
	case "list":
		for i, m := range muts {
			fmt.Printf("%d\t%d\t%s\t%s\n", i, m.line, m.kind, m.desc)
		}
	case "apply":
		idx, _ := strconv.Atoi(os.Args[3])
		if idx < 0 || idx >= len(muts) {
			os.Exit(2)
		}
		muts[idx].apply()
		var buf bytes.Buffer
		if err := format.Node(&buf, fset, f); err != nil {
			fmt.Fprintln(os.Stderr, err)
			os.Exit(2)
		}
		os.Stdout.Write(buf.Bytes())
	}
}

func isStringy(b *ast.BinaryExpr) bool {
	for _, e := range []ast.Expr{b.X, b.Y} {
		if l, ok := e.(*ast.BasicLit); ok && l.Kind == token.STRING {
			return true
		}
	}
	return false
}
