#!/bin/bash
# Runs the repository's Go test suites with the verif guard OFF and compares per-test results with
# /root/.vp/BASELINE.json stable_pass. Exit 0 iff every stable_pass test passes.
set -u
export GOFLAGS= GOPROXY=off GOSUMDB=off GOTOOLCHAIN=local
unset GOWORK
out=$(mktemp)
for m in go/mcap go/ros go/conformance/test-read-conformance go/conformance/test-write-conformance; do
  (cd ${REPO:-/repo}/$m && go test -json -vet=off -count=1 -timeout 25m ./... ) >> "$out" 2>/dev/null
done
python3 - "$out" <<'PY'
import json,sys
base=json.load(open('/root/.vp/BASELINE.json'))['stable_pass']
res={}
for line in open(sys.argv[1]):
    try: e=json.loads(line)
    except Exception: continue
    if e.get('Test') and e.get('Action') in ('pass','fail','skip'):
        res[e['Package']+'::'+e['Test']]=e['Action']
bad=[t for t in base if res.get(t)!='pass']
print(f"baseline: {len(base)-len(bad)}/{len(base)} stable tests pass")
for t in bad: print("  NOT PASSING:",t,res.get(t))
sys.exit(1 if bad else 0)
PY
rc=$?
rm -f "$out"
exit $rc
