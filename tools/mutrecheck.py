#!/usr/bin/env python3
"""Re-run the static checks on the mutation-scan survivors nothing fired on (development aid).
usage: mutrecheck.py [-j N] [results.jsonl]   -> /tmp/ms/recheck.jsonl"""
import sys, os, subprocess, json, threading, queue
ENV = dict(os.environ, GOFLAGS="", GOPROXY="off", GOSUMDB="off", GOTOOLCHAIN="local"); ENV.pop("GOWORK", None)
MUTGEN = "/tmp/mutgen"; MCAPVET = os.environ.get("MCAPVET", "/tmp/mcapvet-ms")
props = ",".join(f"C{i:02d}" for i in range(1, 21))
def sh(cmd, cwd=None, timeout=900):
    try:
        p = subprocess.run(cmd, shell=True, cwd=cwd, env=ENV, capture_output=True, text=True, timeout=timeout)
        return p.returncode, p.stdout + p.stderr
    except subprocess.TimeoutExpired:
        return 124, "timeout"
def worker(k, q, out, lock):
    wt = f"/tmp/ms/w{k}"
    if not os.path.isdir(wt):
        sh(f"git -C /repo worktree add -q --detach {wt} HEAD")
    sh(f"git -C {wt} checkout -q -- .")
    while True:
        try: d = q.get_nowait()
        except queue.Empty: return
        f, idx = d["file"], d["idx"]
        rc, src = sh(f"{MUTGEN} apply /repo/go/mcap/{f} {idx}")
        open(f"{wt}/go/mcap/{f}", "w").write(src)
        rc, o = sh(f"{MCAPVET} multi {props} --repo {wt} --verif /verif", cwd="/verif")
        fired, und, rules = [], [], []
        for l in o.splitlines():
            if l.startswith("MULTI {"):
                m = json.loads(l[6:])
                if m["exit"] == 1: fired.append(m["prop"]); rules.extend(v.split(" | ")[0] for v in (m["violations"] or [])[:3])
                if m["exit"] == 2: und.append(m["prop"])
        d = dict(d, fired=fired, undecided=und, rules=rules, rc=rc)
        sh(f"git -C {wt} checkout -q -- .")
        with lock:
            out.write(json.dumps(d) + "\n"); out.flush()
def main():
    args = sys.argv[1:]; j = 4
    if args and args[0] == "-j": j = int(args[1]); args = args[2:]
    src = args[0] if args else "/tmp/ms/results.jsonl"
    q = queue.Queue()
    for l in open(src):
        d = json.loads(l)
        if d["status"] == "survived" and not d.get("fired"): q.put(d)
    out = open("/tmp/ms/recheck.jsonl", "w"); lock = threading.Lock()
    ts = [threading.Thread(target=worker, args=(k, q, out, lock)) for k in range(j)]
    [t.start() for t in ts]; [t.join() for t in ts]
main()
