#!/usr/bin/env python3
"""Regenerate /verif/MANIFEST.json from the table below (run from /verif)."""
import json, subprocess, os
here = os.path.dirname(os.path.dirname(os.path.abspath(__file__)))
props = [json.loads(l)["id"] for l in open(os.path.join(here, "properties.jsonl"))]

# property -> (technique, level text, level note, design ref)
claimed = {
 "C14": ("error-flow dataflow over go/ssa CFGs with a VTA call graph (E3); SSA dominance for the attachment size check",
         "Decides structural necessary conditions only: every sink-reaching call's error is bound, consulted before the next sink-reaching call on every path and returned non-nil; the attachment byte count is compared with DataSize before bookkeeping. Does not decide the prefix clause or absence of panics under faults.",
         "Trusts go/types, go/ssa, VTA call graph and this checker; assumes the io.Writer contract (short write => non-nil error); third-party compressors not analysed.",
         "DESIGN.md section 3 C14"),
 "C15": ("error-flow dataflow with EOF-classification states over go/ssa (E3); who-may-call rule for raw Read (E5); forward value flow of read counts",
         "Decides structural necessary conditions only: the source is touched only through full-read primitives or transparent Read wrappers; every source/seek/decompressor/callback error is consulted on every path and never becomes success or a clean io.EOF unless classified by errors.Is(io.EOF|io.ErrUnexpectedEOF); read counts feed diagnostics only. Does not decide third-party decoder behaviour or the prefix clause.",
         "Trusts go/types, go/ssa, VTA call graph and this checker; zstd/lz4 decoders assumed to propagate source errors.",
         "DESIGN.md section 3 C15"),
 "C10": ("bounded-input taint+guard dataflow over go/ssa with whole-program field/param/result summaries (E2); error-flow dataflow for decode errors (E3); who-may-call rule for abort calls (E5)",
         "Decides structural necessary conditions only: every input-decoded integer reaching a slice bound, index or allocation size is upper-bounded (comparison or validating callee) on every CFG path; no panic/exit call; every decode/validation error is consulted and propagated. Decides presence of a bound, not its tightness; does not decide absence of all panics, termination, or memory use.",
         "Trusts go/types, go/ssa, VTA call graph and this checker. One named suppression (NextInto re-read of a length already validated by loadChunk) documented in DESIGN.md 7.1. Third-party decoders not analysed.",
         "DESIGN.md section 3 C10, 7.1"),
 "C13": ("effect / who-may-call rules over go/ssa and typed ASTs (E5): map-range bodies, ambient inputs, package-level state",
         "Decides structural necessary conditions only: no map-iteration order, clock, randomness, environment, CPU count, goroutine or select reaches writer code, and go/mcap has no mutable package-level state. Does not decide determinism of the third-party compressors.",
         "Trusts go/types, go/ssa, VTA call graph and this checker; zstd/lz4 encoders assumed deterministic.",
         "DESIGN.md section 3 C13"),
 "C18": ("E2 bounded-input dataflow + minimum-length rule for fixed-offset header reads; E3 error-flow (writer, source, callbacks, sql rows.Err typestate); E5 abort calls",
         "Decides structural necessary conditions only: the converters contain no process-exit call, bound every bag-decoded integer before using it as a slice bound/size, test header value lengths before fixed-offset reads, and propagate read/write/close/database errors. Does not decide conversion fidelity or ordering.",
         "Trusts go/types, go/ssa, VTA call graph and this checker; go-sqlite3, lz4 and bzip2 not analysed.",
         "DESIGN.md section 3 C18"),
 "C19": ("call-graph cycle detection with termination-guard recognition; ordering rule for slice bounds from independent searches; E3/E5",
         "Decides structural necessary conditions only: every recursion over the untrusted definition carries a visited-set or depth guard, bracket positions are ordered before slicing, only RE2 regexps are used, no abort calls, nested errors are propagated. Does not decide that the returned tree is the right one.",
         "Trusts go/types, go/ssa, VTA call graph and this checker.",
         "DESIGN.md section 3 C19"),
 "C01": ("codec-layout extraction from typed ASTs (E1) compared with the spec's tables; linear size forms (E8); buffer-origin (aliasing) analysis over go/ssa; SSA pattern rules for binding keys",
         "Decides structural necessary conditions only: Go encoder and decoder layouts equal the specification table for all 15 record kinds; the reusable encode buffer is sized for what is written; values handed to callers do not alias reusable read buffers; yielded messages are bound to channel/schema through their own ids. Does not decide value equality, the de-chunking state machine, or flag combinations.",
         "Trusts go/types, go/ssa and this checker; the spec's Markdown tables are the oracle for layouts; documented aliasing exceptions (ParseChunk, ParseMessage) are allowed by name with a reason.",
         "DESIGN.md section 3 C01"),
 "C05": ("codec-layout extraction (E1) vs the spec tables; linear size forms (E8)",
         "Decides structural necessary conditions only: for each record kind the encoder's field order, widths and framing opcode equal the specification, and the message buffer is sized for what is written. Does not decide whole-file grammar or the numeric exactness of offsets on concrete inputs.",
         "Trusts go/types and this checker; the spec's Markdown tables are the oracle.",
         "DESIGN.md section 3 C05"),
 "C16": ("codec-layout extraction (E1) from Go typed ASTs and from Python sources via ast.parse (never imported), compared with the spec tables; opcode/magic tables; offset-convention patterns in the Python writer/reader",
         "Decides structural necessary conditions only: Go encoder/decoder and Python write/read layouts all equal the spec table (so they agree with each other), opcode values and magic agree, attachment CRC scope and offset conventions agree. Does not decide any dynamic reader behaviour.",
         "Trusts go/types, Python's ast module and this checker; the Python side is parsed, never executed.",
         "DESIGN.md section 3 C16"),
 "C02": ("SSA path rules (E4/E6): silent-skip classification of table lookups vs the index gate; must-pass-through for the metadata callback; offset-convention patterns; dominance of the gate; buffer-origin analysis for chunk slots",
         "Decides structural necessary conditions only: every table on which the index path silently skips messages is consulted by the gate; the metadata callback is invoked per indexed record; random-access offsets follow the writer's convention; the indexed iterator is only returned behind a true gate; chunk slots own their bytes; binding keys. Does not decide element-wise equality with the scan.",
         "Trusts go/types, go/ssa and this checker.", "DESIGN.md section 3 C02"),
 "C03": ("SSA pattern rules (E7): stable-sort API resolution, comparator shape, key agreement between chunk sort and load trigger, CFG reachability for re-evaluation after a load",
         "Decides structural necessary conditions only: stable sort + strict single-key comparators with the order's direction; chunk order key equals the load-trigger key; reverse segment reversal; the load trigger is re-evaluated after every chunk load. Does not decide that the merge yields every message exactly once in order.",
         "Trusts go/types, go/ssa and this checker.", "DESIGN.md section 3 C03"),
 "C04": ("predicate normalisation from typed ASTs with helper inlining, compared over all orderings of the compared terms (E7); store/load sets for read options; buffer-origin analysis for the cached Info",
         "Decides structural necessary conditions only: yield predicate equivalent to start <= t && (t < end || end == MAX) in both iterators; chunk pruning implied by exact overlap; every read option reaches the iterator; identical topic filter; cached Info never mutated. Does not decide equality with the filtered full read on concrete files.",
         "Trusts go/types and this checker; formulas are compared by enumerating total preorders of at most 7 terms.", "DESIGN.md section 3 C04"),
 "C06": ("call-order / dominance rules on go/ssa (E4): checksum reads vs sink writes vs resets; who-may-call and receiver-origin rules for the CRC accumulators (E5)",
         "Decides structural necessary conditions only: order of data-CRC read, DataEnd, reset, summary; footer CRC read between prefix write and CRC write; attachment CRC accumulator fresh per attachment and scoped to bytes 9..data; wrappers hash what they forward; single owner of the sink; IEEE polynomial; 0 when disabled. Does not decide CRC values.",
         "Trusts go/types, go/ssa, VTA call graph and this checker.", "DESIGN.md section 3 C06"),
 "C07": ("dominance rules on go/ssa (E4): CRC comparison vs exposure of the buffer; error-flow (E3); who-may-store rule for the parsed-CRC cache",
         "Decides structural necessary conditions only: the CRC comparison's pass branch dominates installing the validated buffer as reader and a mismatch returns the error; the hashed buffer is the one filled by a full read; loadChunk errors reach Next's caller; crcReader hashes exactly p[:n]; attachment fields/data pass the crcReader and the stored CRC comes from the base reader; the parsed-CRC slot has one writer. Does not decide detection power or decompressor behaviour.",
         "Trusts go/types, go/ssa and this checker.", "DESIGN.md section 3 C07"),
 "C08": ("increment-site / dominance rules on go/ssa (E5); guard recognition for the chunk time fold; Info literal and summary-arm tables from typed ASTs (E6); E1 for the Statistics record",
         "Decides structural necessary conditions only: one increment site per counter dominating every successful return after the record's writes; first-message test after the increment; chunk time fold guarded (has-messages, direct-chunk mode); Info populated from every table and every summary record kind handled; Statistics layout. Does not decide aggregate values.",
         "Trusts go/types, go/ssa and this checker.", "DESIGN.md section 3 C08"),
 "C09": ("who-may-call rule for Seek/WriteAt/Truncate (E5); dominance of full reads over record returns (E4); E3 error classification; E2 bounded input",
         "Decides structural necessary conditions only: append-only writer; records returned only after a dominating full read of their declared length; EOF classification discipline; bounded input. Does not decide the prefix property through streaming decompressors.",
         "Trusts go/types, go/ssa, VTA call graph and this checker.", "DESIGN.md section 3 C09"),
 "C11": ("switch-arm tables from typed ASTs vs the spec's opcode list (E6); comparison-shape rules for parsers; raw-derivation of loop bounds (E2 facts); who-may-use rule for the base reader",
         "Decides structural necessary conditions only: the lexer has an arm per specified opcode and skips all others by length; extensible-record parsers use minimum-length tests only, never read an open tail and bound repetitions by the declared length; attachment remainder skipped; record bodies consumed from the active reader only. Does not decide that reports are unchanged under padding.",
         "Trusts go/types, go/ssa and this checker; the spec's opcode list is the oracle.", "DESIGN.md section 3 C11"),
 "C12": ("per-arm read/write sets of the summary switch from typed ASTs (E6); case-label sets of the two chunk decoders; buffer-origin analysis",
         "Decides structural necessary conditions only: summary handlers commute (no inter-arm read/write or write/write dependency except the terminal footer arm); both chunk decoders accept the same compressions; chunk slots own their bytes; optional parts not required. Does not decide content equality across layouts.",
         "Trusts go/types, go/ssa and this checker.", "DESIGN.md section 3 C12"),
 "C17": ("switch/literal tables of the conformance tools from typed ASTs (E6) vs TestFeatures in types.ts and the 416 JSON expectation vectors; constant evaluation of the tool's snake-casing regexps; plus the C05/C08/C11 rule sets",
         "Decides structural necessary conditions only: feature->option table total and correct; a handler for every input record type and field; printed field/type names equal the vectors'; summary group order consistent with the vectors; the writer/parser rules the expectations depend on. Does not decide byte equality of tool output.",
         "Trusts go/types and this checker; types.ts is read with a regular expression (no TypeScript front end).", "DESIGN.md section 3 C17"),
 "C20": ("use-set rule for the attachment source, CFG reachability for the attachment arm, store-shape and pairing rules for the slot counter, guard recognition for buffer growth (E4/E5)",
         "Decides structural necessary conditions only: attachments are streamed on both sides; the slot unread counter is only incremented with an index append and decremented with the cursor advance; slots and buffers are reused before grown; chunks are loaded only from NextInto. Does not decide measured memory or the overlap-depth bound.",
         "Trusts go/types, go/ssa and this checker.", "DESIGN.md section 3 C20"),
}
na_reason = "check not built yet (build in progress, see DESIGN.md section 7.2)"

checks = []
for pid in props:
    if pid not in claimed:
        continue
    tech, text, note, ref = claimed[pid]
    checks.append({
        "property_id": pid,
        "quick_cmd": f"./check {pid} quick",
        "thorough_cmd": f"./check {pid} thorough",
        "evidence_file": f"/verif/evidence/{pid}.json",
        "replay_cmd_template": "./check --replay {path}",
        "engine": "mcapvet",
        "level_claimed": {"category": "other", "text": text, "design_ref": ref},
        "level_note": note,
        "technique": "static analysis: " + tech,
    })
m = {
 "version": 1,
 "setup_cmd": "cd /verif/checker && GOFLAGS=-mod=mod GOPROXY=off GOSUMDB=off GOTOOLCHAIN=local go build -o /verif/bin/mcapvet .",
 "hooks": {"guard": "verif",
           "enable": "-tags verif (no hooks exist: static analysis reads the source; the thorough tier also analyses under this tag)",
           "baseline_off_cmd": "/verif/tools/baseline.sh",
           "source_commits": [], "add_only": True},
 "engines": [{"name": "mcapvet", "path": "/verif/checker", "serves_properties": sorted(claimed),
              "kind_free_text": "repository-specific static analyser: go/packages + go/types + go/ssa + VTA call graph over /repo/go (never executes repository code)"}],
 "checks": checks,
 "notes": "All claims are at level 'other': each check decides structural necessary conditions of its property from /repo's current source and says in its evidence what it does not decide. Exit 0 held / 1 VIOLATION / 2 undecided (never reported as held).",
 "not_applicable": [{"property_id": p, "reason": na_reason} for p in props if p not in claimed],
}
json.dump(m, open(os.path.join(here, "MANIFEST.json"), "w"), indent=1)
print("claimed", sorted(claimed), "n/a", len(m["not_applicable"]))
