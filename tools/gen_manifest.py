#!/usr/bin/env python3
"""Regenerate /verif/MANIFEST.json from the table below (run from /verif)."""
import json, subprocess, os
here = os.path.dirname(os.path.dirname(os.path.abspath(__file__)))
props = [json.loads(l)["id"] for l in open(os.path.join(here, "properties.jsonl"))]

# property -> (technique, level text, level note, design ref)
claimed = {
 "C14": ("error-flow dataflow over go/ssa CFGs with a VTA call graph (E3); SSA dominance for the attachment size check",
         "Decides structural necessary conditions only: every sink-reaching call's error is bound, consulted before the next sink-reaching call on every path and returned non-nil; the attachment byte count is compared with DataSize before bookkeeping. Does not decide the prefix clause or absence of panics under faults.",
         "Trusts go/types, go/ssa, VTA call graph and this checker; assumes the io.Writer contract (short write => non-nil error); third-party compressors not analysed.",
         "DESIGN.md section 3 C14"),
 "C15": ("error-flow dataflow with EOF-classification states over go/ssa (E3); who-may-call rule for raw Read (E5); forward value flow of read counts",
         "Decides structural necessary conditions only: the source is touched only through full-read primitives or transparent Read wrappers; every source/seek/decompressor/callback error is consulted on every path and never becomes success or a clean io.EOF unless classified by errors.Is(io.EOF|io.ErrUnexpectedEOF); read counts feed diagnostics only. Does not decide third-party decoder behaviour or the prefix clause.",
         "Trusts go/types, go/ssa, VTA call graph and this checker; zstd/lz4 decoders assumed to propagate source errors.",
         "DESIGN.md section 3 C15"),
 "C10": ("bounded-input taint+guard dataflow over go/ssa with whole-program field/param/result summaries (E2); error-flow dataflow for decode errors (E3); who-may-call rule for abort calls (E5)",
         "Decides structural necessary conditions only: every input-decoded integer reaching a slice bound, index or allocation size is upper-bounded (comparison or validating callee) on every CFG path; no panic/exit call; every decode/validation error is consulted and propagated. Decides presence of a bound, not its tightness; does not decide absence of all panics, termination, or memory use.",
         "Trusts go/types, go/ssa, VTA call graph and this checker. One named suppression (NextInto re-read of a length already validated by loadChunk) documented in DESIGN.md 7.1. Third-party decoders not analysed.",
         "DESIGN.md section 3 C10, 7.1"),
 "C13": ("effect / who-may-call rules over go/ssa and typed ASTs (E5): map-range bodies, ambient inputs, package-level state",
         "Decides structural necessary conditions only: no map-iteration order, clock, randomness, environment, CPU count, goroutine or select reaches writer code, and go/mcap has no mutable package-level state. Does not decide determinism of the third-party compressors.",
         "Trusts go/types, go/ssa, VTA call graph and this checker; zstd/lz4 encoders assumed deterministic.",
         "DESIGN.md section 3 C13"),
 "C18": ("E2 bounded-input dataflow + minimum-length rule for fixed-offset header reads; E3 error-flow (writer, source, callbacks, sql rows.Err typestate); E5 abort calls",
         "Decides structural necessary conditions only: the converters contain no process-exit call, bound every bag-decoded integer before using it as a slice bound/size, test header value lengths before fixed-offset reads, and propagate read/write/close/database errors. Does not decide conversion fidelity or ordering.",
         "Trusts go/types, go/ssa, VTA call graph and this checker; go-sqlite3, lz4 and bzip2 not analysed.",
         "DESIGN.md section 3 C18"),
 "C19": ("call-graph cycle detection with termination-guard recognition; ordering rule for slice bounds from independent searches; E3/E5",
         "Decides structural necessary conditions only: every recursion over the untrusted definition carries a visited-set or depth guard, bracket positions are ordered before slicing, only RE2 regexps are used, no abort calls, nested errors are propagated. Does not decide that the returned tree is the right one.",
         "Trusts go/types, go/ssa, VTA call graph and this checker.",
         "DESIGN.md section 3 C19"),
 "C01": ("codec-layout extraction from typed ASTs (E1) compared with the spec's tables; linear size forms (E8); buffer-origin (aliasing) analysis over go/ssa; SSA pattern rules for binding keys",
         "Decides structural necessary conditions only: Go encoder and decoder layouts equal the specification table for all 15 record kinds; the reusable encode buffer is sized for what is written; values handed to callers do not alias reusable read buffers; yielded messages are bound to channel/schema through their own ids. Does not decide value equality, the de-chunking state machine, or flag combinations.",
         "Trusts go/types, go/ssa and this checker; the spec's Markdown tables are the oracle for layouts; documented aliasing exceptions (ParseChunk, ParseMessage) are allowed by name with a reason.",
         "DESIGN.md section 3 C01"),
 "C05": ("codec-layout extraction (E1) vs the spec tables; linear size forms (E8)",
         "Decides structural necessary conditions only: for each record kind the encoder's field order, widths and framing opcode equal the specification, and the message buffer is sized for what is written. Does not decide whole-file grammar or the numeric exactness of offsets on concrete inputs.",
         "Trusts go/types and this checker; the spec's Markdown tables are the oracle.",
         "DESIGN.md section 3 C05"),
 "C16": ("codec-layout extraction (E1) from Go typed ASTs and from Python sources via ast.parse (never imported), compared with the spec tables; opcode/magic tables; offset-convention patterns in the Python writer/reader",
         "Decides structural necessary conditions only: Go encoder/decoder and Python write/read layouts all equal the spec table (so they agree with each other), opcode values and magic agree, attachment CRC scope and offset conventions agree. Does not decide any dynamic reader behaviour.",
         "Trusts go/types, Python's ast module and this checker; the Python side is parsed, never executed.",
         "DESIGN.md section 3 C16"),
}
na_reason = "check not built yet (build in progress, see DESIGN.md section 7.2)"

checks = []
for pid in props:
    if pid not in claimed:
        continue
    tech, text, note, ref = claimed[pid]
    checks.append({
        "property_id": pid,
        "quick_cmd": f"./check {pid} quick",
        "thorough_cmd": f"./check {pid} thorough",
        "evidence_file": f"/verif/evidence/{pid}.json",
        "replay_cmd_template": "./check --replay {path}",
        "engine": "mcapvet",
        "level_claimed": {"category": "other", "text": text, "design_ref": ref},
        "level_note": note,
        "technique": "static analysis: " + tech,
    })
m = {
 "version": 1,
 "setup_cmd": "cd /verif/checker && GOFLAGS=-mod=mod GOPROXY=off GOSUMDB=off GOTOOLCHAIN=local go build -o /verif/bin/mcapvet .",
 "hooks": {"guard": "verif",
           "enable": "-tags verif (no hooks exist: static analysis reads the source; the thorough tier also analyses under this tag)",
           "baseline_off_cmd": "/verif/tools/baseline.sh",
           "source_commits": [], "add_only": True},
 "engines": [{"name": "mcapvet", "path": "/verif/checker", "serves_properties": sorted(claimed),
              "kind_free_text": "repository-specific static analyser: go/packages + go/types + go/ssa + VTA call graph over /repo/go (never executes repository code)"}],
 "checks": checks,
 "notes": "All claims are at level 'other': each check decides structural necessary conditions of its property from /repo's current source and says in its evidence what it does not decide. Exit 0 held / 1 VIOLATION / 2 undecided (never reported as held).",
 "not_applicable": [{"property_id": p, "reason": na_reason} for p in props if p not in claimed],
}
json.dump(m, open(os.path.join(here, "MANIFEST.json"), "w"), indent=1)
print("claimed", sorted(claimed), "n/a", len(m["not_applicable"]))
