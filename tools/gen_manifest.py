#!/usr/bin/env python3
"""Regenerate /verif/MANIFEST.json from the table below (run from /verif)."""
import json, subprocess, os
here = os.path.dirname(os.path.dirname(os.path.abspath(__file__)))
props = [json.loads(l)["id"] for l in open(os.path.join(here, "properties.jsonl"))]

# property -> (technique, level text, level note, design ref)
claimed = {
 "C14": ("error-flow dataflow over go/ssa CFGs with a VTA call graph (E3); SSA dominance for the attachment size check",
         "Decides structural necessary conditions only: every sink-reaching call's error is bound, consulted before the next sink-reaching call on every path and returned non-nil; the attachment byte count is compared with DataSize before bookkeeping. Does not decide the prefix clause or absence of panics under faults.",
         "Trusts go/types, go/ssa, VTA call graph and this checker; assumes the io.Writer contract (short write => non-nil error); third-party compressors not analysed.",
         "DESIGN.md section 3 C14"),
 "C15": ("error-flow dataflow with EOF-classification states over go/ssa (E3); who-may-call rule for raw Read (E5); forward value flow of read counts",
         "Decides structural necessary conditions only: the source is touched only through full-read primitives or transparent Read wrappers; every source/seek/decompressor/callback error is consulted on every path and never becomes success or a clean io.EOF unless classified by errors.Is(io.EOF|io.ErrUnexpectedEOF); read counts feed diagnostics only. Does not decide third-party decoder behaviour or the prefix clause.",
         "Trusts go/types, go/ssa, VTA call graph and this checker; zstd/lz4 decoders assumed to propagate source errors.",
         "DESIGN.md section 3 C15"),
}
na_reason = "check not built yet (build in progress, see DESIGN.md section 7.2)"

checks = []
for pid in props:
    if pid not in claimed:
        continue
    tech, text, note, ref = claimed[pid]
    checks.append({
        "property_id": pid,
        "quick_cmd": f"./check {pid} quick",
        "thorough_cmd": f"./check {pid} thorough",
        "evidence_file": f"/verif/evidence/{pid}.json",
        "replay_cmd_template": "./check --replay {path}",
        "engine": "mcapvet",
        "level_claimed": {"category": "other", "text": text, "design_ref": ref},
        "level_note": note,
        "technique": "static analysis: " + tech,
    })
m = {
 "version": 1,
 "setup_cmd": "cd /verif/checker && GOFLAGS=-mod=mod GOPROXY=off GOSUMDB=off GOTOOLCHAIN=local go build -o /verif/bin/mcapvet .",
 "hooks": {"guard": "verif",
           "enable": "-tags verif (no hooks exist: static analysis reads the source; the thorough tier also analyses under this tag)",
           "baseline_off_cmd": "/verif/tools/baseline.sh",
           "source_commits": [], "add_only": True},
 "engines": [{"name": "mcapvet", "path": "/verif/checker", "serves_properties": sorted(claimed),
              "kind_free_text": "repository-specific static analyser: go/packages + go/types + go/ssa + VTA call graph over /repo/go (never executes repository code)"}],
 "checks": checks,
 "notes": "All claims are at level 'other': each check decides structural necessary conditions of its property from /repo's current source and says in its evidence what it does not decide. Exit 0 held / 1 VIOLATION / 2 undecided (never reported as held).",
 "not_applicable": [{"property_id": p, "reason": na_reason} for p in props if p not in claimed],
}
json.dump(m, open(os.path.join(here, "MANIFEST.json"), "w"), indent=1)
print("claimed", sorted(claimed), "n/a", len(m["not_applicable"]))
