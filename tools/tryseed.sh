#!/bin/bash
# usage: tryseed.sh <seed-id> <prop,prop,...>   (uses scratch worktree /tmp/wt2 at /repo HEAD)
set -u
git -C /repo worktree list | grep -q /tmp/wt2 || git -C /repo worktree add -q --detach /tmp/wt2 HEAD
git -C /tmp/wt2 reset -q --hard; git -C /tmp/wt2 checkout -q --detach "$(git -C /repo rev-parse HEAD)"
(cd /tmp/wt2 && git apply --3way /verif/seeded/$1/patch.diff >/dev/null 2>&1 || echo "PATCH DOES NOT APPLY"; git reset -q)
/verif/bin/mcapvet multi "$2" --repo /tmp/wt2 --verif /verif | cut -c1-${3:-600}
git -C /tmp/wt2 reset -q --hard
