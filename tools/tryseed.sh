#!/bin/bash
# usage: tryseed.sh <seed-id> <prop,prop,...>   (uses scratch worktree /tmp/wt5 at /repo HEAD)
set -u
git -C /repo worktree list | grep -q /tmp/wt5 || git -C /repo worktree add -q --detach /tmp/wt5 HEAD
git -C /tmp/wt5 reset -q --hard; git -C /tmp/wt5 checkout -q --detach "$(git -C /repo rev-parse HEAD)"
(cd /tmp/wt5 && git apply --3way /verif/seeded/$1/patch.diff >/dev/null 2>&1 || echo "PATCH DOES NOT APPLY"; git reset -q)
/verif/bin/mcapvet multi "$2" --repo /tmp/wt5 --verif /verif | cut -c1-${3:-600}
git -C /tmp/wt5 reset -q --hard
