#!/usr/bin/env python3
"""Run every check against every behaviour-preserving refactoring under /verif/benign (expect: all quiet)."""
import sys, os, subprocess, json, glob
REPO = os.environ.get("REPO", "/tmp/wt2")
MCAPVET = os.environ.get("MCAPVET", "/verif/bin/mcapvet")
ENV = dict(os.environ, GOFLAGS="", GOPROXY="off", GOSUMDB="off", GOTOOLCHAIN="local"); ENV.pop("GOWORK", None)
def sh(cmd, cwd=None):
    p = subprocess.run(cmd, shell=True, cwd=cwd, env=ENV, capture_output=True, text=True); return p.returncode, p.stdout + p.stderr
props = sorted(set(l.split('"')[1] for l in subprocess.run("grep -ho 'register(\"C[0-9]*\"' /verif/checker/*.go", shell=True, capture_output=True, text=True).stdout.split()))
sh(f"git -C /repo worktree list | grep -q {REPO} || git -C /repo worktree add -q --detach {REPO} HEAD")
sh("git reset -q --hard; git checkout -q --detach $(git -C /repo rev-parse HEAD)", cwd=REPO)
ids = sys.argv[1:] or sorted(os.path.basename(d) for d in glob.glob("/verif/benign/C*"))
out = {}
mp = os.environ.get("MATRIX_OUT", "/verif/benign/MATRIX.json")
if os.path.exists(mp): out = json.load(open(mp))
for bid in ids:
    d = f"/verif/benign/{bid}"
    try:
        rc, o = sh(f"git apply --3way {d}/patch.diff", cwd=REPO)
        if rc != 0: print(bid, "PATCH DOES NOT APPLY", o[-200:]); out[bid] = {"applies": False}; continue
        sh("git reset -q", cwd=REPO)
        rc, o = sh(f"go build ./... ", cwd=REPO + "/go/mcap")
        rc2, o2 = sh(f"{MCAPVET} multi {','.join(props)} --repo {REPO} --verif /verif", cwd="/verif")
        res = {}
        for l in o2.splitlines():
            if l.startswith("MULTI {"):
                x = json.loads(l[6:]); res[x["prop"]] = x
        alarms = {p: (v["violations"] or v["undecided"])[:3] for p, v in res.items() if v["exit"] != 0}
        out[bid] = {"applies": True, "builds": rc == 0, "alarms": alarms}
        print(f"{bid:8} {'quiet' if not alarms else 'ALARM ' + json.dumps(alarms)[:600]}")
    finally:
        sh("git reset -q --hard HEAD", cwd=REPO)
    json.dump(out, open(mp, "w"), indent=1, sort_keys=True)
n = sum(1 for v in out.values() if v.get("applies")); q = sum(1 for v in out.values() if v.get("applies") and not v["alarms"])
print(f"quiet on {q}/{n} behaviour-preserving refactorings")
