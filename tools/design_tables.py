#!/usr/bin/env python3
"""Print the markdown tables of DESIGN.md section 8.4 (seeded changes) and 8.6 (refactorings) from seeded/, benign/ and the two MATRIX.json files."""
import json, os, re, glob
def title(d):
    n = os.path.join(d, "notes.md")
    if os.path.exists(n):
        for line in open(n):
            m = re.match(r"^#+\s*(.*)$", line)
            if m:
                t = re.sub(r"^C\d\d-[A-Z]\d?\s*[:—–-]*\s*", "", m.group(1)).strip()
                t = re.sub(r"^\(?defect\)?\s*[:—–-]*\s*", "", t, flags=re.I).strip()
                if t: return t[:170]
    return ""
sm = json.load(open("/verif/seeded/MATRIX.json")) if os.path.exists("/verif/seeded/MATRIX.json") else {}
print("| seeded change | what it does | caught by (own property first) |\n|---|---|---|")
for d in sorted(glob.glob("/verif/seeded/C*")):
    i = os.path.basename(d); own = i.split("-")[0]
    e = sm.get(i, {})
    fired = e.get("fired") or e.get("caught_by") or []
    ownrules = sorted(set(v.split(" | ")[0] for v in e.get("own_violations", [])))
    fs = sorted(fired, key=lambda x: (x != own, x))
    cell = ", ".join((", ".join(ownrules) if f == own and ownrules else f) for f in fs) or "**not caught**"
    print(f"| {i} | {title(d)} | {cell} |")
bm = json.load(open("/verif/benign/MATRIX.json")) if os.path.exists("/verif/benign/MATRIX.json") else {}
print("\n| refactoring | what it changes | checks |\n|---|---|---|")
for d in sorted(glob.glob("/verif/benign/C*")):
    i = os.path.basename(d); e = bm.get(i, {})
    st = "quiet (all 20)" if e.get("applies") and not e.get("alarms") else ("ALARM " + json.dumps(e.get("alarms"))[:120] if e.get("applies") else "n/a")
    print(f"| {i} | {title(d)} | {st} |")
