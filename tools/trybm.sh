#!/bin/bash
# usage: trybm.sh <benign-id> <prop,prop,...>   multi run on /tmp/wt5 with the refactoring applied
set -u
git -C /tmp/wt5 reset -q --hard; git -C /tmp/wt5 checkout -q --detach "$(git -C /repo rev-parse HEAD)"
(cd /tmp/wt5 && git apply --3way /verif/benign/$1/patch.diff >/dev/null 2>&1 || echo "PATCH DOES NOT APPLY"; git reset -q)
/verif/bin/mcapvet multi "$2" --repo /tmp/wt5 --verif /verif | grep MULTI | grep -v '"exit":0' | cut -c1-${3:-1200}
git -C /tmp/wt5 reset -q --hard
