#!/usr/bin/env python3
"""Mutation scan (development aid, not a registered check): single-point syntactic mutants of go/mcap sources are
built and run against the go/mcap baseline tests in scratch worktrees; the survivors are handed to every static check.
Output: /tmp/ms/results.jsonl (one line per mutant: file, idx, line, kind, desc, status=nobuild|killed|survived, fired=[...]).
usage: mutscan.py [-j N] file.go[:from-to] ...      (files relative to go/mcap)"""
import sys, os, subprocess, json, threading, queue, shutil
ENV = dict(os.environ, GOFLAGS="", GOPROXY="off", GOSUMDB="off", GOTOOLCHAIN="local"); ENV.pop("GOWORK", None)
MUTGEN = "/tmp/mutgen"; MCAPVET = os.environ.get("MCAPVET", "/tmp/mcapvet-ms")
base = [t.split("::")[1] for t in json.load(open("/root/.vp/BASELINE.json"))["stable_pass"] if t.startswith("github.com/foxglove/mcap/go/mcap::")]
props = ",".join(f"C{i:02d}" for i in range(1, 21))
def sh(cmd, cwd=None, timeout=600):
    try:
        p = subprocess.run(cmd, shell=True, cwd=cwd, env=ENV, capture_output=True, text=True, timeout=timeout)
        return p.returncode, p.stdout + p.stderr
    except subprocess.TimeoutExpired:
        return 124, "timeout"
def worker(k, q, out, lock):
    wt = f"/tmp/ms/w{k}"
    if not os.path.isdir(wt):
        sh(f"git -C /repo worktree add -q --detach {wt} HEAD")
    while True:
        try: job = q.get_nowait()
        except queue.Empty: return
        f, idx, line, kind, desc = job
        path = f"{wt}/go/mcap/{f}"
        res = {"file": f, "idx": idx, "line": line, "kind": kind, "desc": desc}
        try:
            rc, src = sh(f"{MUTGEN} apply /repo/go/mcap/{f} {idx}")
            if rc != 0: res["status"] = "generr"; raise StopIteration
            open(path, "w").write(src)
            rc, o = sh("go build ./... && go vet -vettool=/bin/true . 2>/dev/null; go build ./...", cwd=f"{wt}/go/mcap")
            rc2, o2 = sh("go build ./...", cwd=f"{wt}/go/ros")
            if rc != 0 or rc2 != 0: res["status"] = "nobuild"; raise StopIteration
            rc, o = sh("go test -json -vet=off -count=1 -timeout 120s .", cwd=f"{wt}/go/mcap", timeout=200)
            got = {}
            for l in o.splitlines():
                try: e = json.loads(l)
                except Exception: continue
                if e.get("Test") and e.get("Action") in ("pass", "fail", "skip"): got[e["Test"]] = e["Action"]
            bad = [t for t in base if got.get(t) != "pass"]
            if bad: res["status"] = "killed"; res["by"] = bad[:2]; raise StopIteration
            res["status"] = "survived"
            rc, o = sh(f"{MCAPVET} multi {props} --repo {wt} --verif /verif", cwd="/verif", timeout=300)
            fired, und = [], []
            for l in o.splitlines():
                if l.startswith("MULTI {"):
                    d = json.loads(l[6:])
                    if d["exit"] == 1: fired.append(d["prop"]); res.setdefault("rules", []).extend(v.split(" | ")[0] for v in (d["violations"] or [])[:3])
                    if d["exit"] == 2: und.append(d["prop"])
            res["fired"] = fired; res["undecided"] = und
        except StopIteration:
            pass
        finally:
            sh(f"git -C {wt} checkout -q -- .")
        with lock:
            out.write(json.dumps(res) + "\n"); out.flush()
def main():
    args = sys.argv[1:]; j = 6
    if args and args[0] == "-j": j = int(args[1]); args = args[2:]
    os.makedirs("/tmp/ms", exist_ok=True)
    q = queue.Queue()
    for a in args:
        f, _, rng = a.partition(":")
        rc, o = sh(f"{MUTGEN} list /repo/go/mcap/{f}")
        rows = [l.split("\t") for l in o.splitlines()]
        lo, hi = 0, 10**9
        if rng: lo, hi = [int(x) for x in rng.split("-")]
        for r in rows:
            if lo <= int(r[1]) <= hi: q.put((f, int(r[0]), int(r[1]), r[2], r[3]))
    print("mutants:", q.qsize(), flush=True)
    out = open("/tmp/ms/results.jsonl", "a"); lock = threading.Lock()
    ts = [threading.Thread(target=worker, args=(k, q, out, lock)) for k in range(j)]
    for t in ts: t.start()
    for t in ts: t.join()
    print("done")
main()
