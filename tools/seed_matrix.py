#!/usr/bin/env python3
"""Run every built check against every seeded defect (patch applied to /repo, reverted afterwards).
usage: seed_matrix.py [ids...]   -> writes /verif/seeded/MATRIX.json and prints a table."""
import sys, os, subprocess, json, glob
REPO = os.environ.get("REPO", "/repo")
MCAPVET = os.environ.get("MCAPVET", "/verif/bin/mcapvet")
ENV = dict(os.environ, GOFLAGS="", GOPROXY="off", GOSUMDB="off", GOTOOLCHAIN="local"); ENV.pop("GOWORK", None)
def sh(cmd, cwd=None):
    p = subprocess.run(cmd, shell=True, cwd=cwd, env=ENV, capture_output=True, text=True)
    return p.returncode, p.stdout + p.stderr
props = [l.split('"')[1] for l in subprocess.run("grep -ho 'register(\"C[0-9]*\"' /verif/checker/*.go", shell=True, capture_output=True, text=True).stdout.split()]
props = sorted(set(props))
ids = sys.argv[1:] or sorted(os.path.basename(d) for d in glob.glob("/verif/seeded/C*"))
rc, out = sh("git status --porcelain --untracked-files=no", cwd=REPO)
if out.strip(): print("REPO DIRTY"); sys.exit(2)
if "MCAPVET" not in os.environ: sh("/verif/check C14 quick >/dev/null")  # make sure the binary is built
mp = os.environ.get("MATRIX_OUT", "/verif/seeded/MATRIX.json")
matrix = json.load(open(mp)) if os.path.exists(mp) else {}
def run_multi():
    rc, out = sh(f"{MCAPVET} multi {','.join(props)} --repo {REPO} --verif /verif", cwd="/verif")
    res = {}
    for l in out.splitlines():
        if l.startswith("MULTI {"):
            d = json.loads(l[6:]); res[d["prop"]] = d
        elif l.startswith("MULTI"):
            res["_error"] = l
    return res
base = run_multi()
bad = [p for p, d in base.items() if p != "_error" and d["exit"] != 0]
print("unchanged tree:", "all quiet" if not bad else f"NOT QUIET: {bad}")
for sid in ids:
    d = f"/verif/seeded/{sid}"
    try:
        rc, out = sh(f"git apply --3way {d}/patch.diff", cwd=REPO)
        if rc != 0:
            print(sid, "PATCH DOES NOT APPLY"); continue
        sh("git reset -q", cwd=REPO)
        res = run_multi()
    finally:
        sh("git reset -q --hard HEAD", cwd=REPO)
    own = sid.split("-")[0]
    fired = sorted(p for p, v in res.items() if p != "_error" and v["exit"] == 1)
    und = sorted(p for p, v in res.items() if p != "_error" and v["exit"] == 2)
    matrix[sid] = {"own_property": own, "caught_by_own": own in fired, "fired": fired, "undecided": und,
                   "own_violations": (res.get(own, {}).get("violations") or [])[:4], "error": res.get("_error")}
    print(f"{sid:7} own={'YES' if own in fired else 'no ':3} fired={fired} undecided={und} {res.get('_error','')}")
    json.dump(matrix, open(mp, "w"), indent=1, sort_keys=True)
tot = len(matrix); own = sum(1 for v in matrix.values() if v["caught_by_own"]); anyc = sum(1 for v in matrix.values() if v["fired"])
print(f"caught by own property's check: {own}/{tot}; by any check: {anyc}/{tot}")
