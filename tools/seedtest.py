#!/usr/bin/env python3
"""Verify and evaluate a seeded defect.
usage: seedtest.py <dir> [--import-as ID] [--props C01,C05] [--skip-verify]
  <dir> holds patch.diff, *_test.go demo(s), notes.md. Steps, all against /repo itself (reverted afterwards):
   1. demo passes on the unchanged tree
   2. patch applies; go build; baseline 195/195; demo FAILS with the patch
   3. run the given property checks (default: the property in the dir name) and report which fire
"""
import sys, os, subprocess, json, glob, shutil, re, time
REPO = os.environ.get("REPO", "/repo")
ENV = dict(os.environ, GOFLAGS="", GOPROXY="off", GOSUMDB="off", GOTOOLCHAIN="local")
ENV.pop("GOWORK", None)
def sh(cmd, cwd=None, env=ENV, timeout=1800):
    p = subprocess.run(cmd, shell=True, cwd=cwd, env=env, capture_output=True, text=True, timeout=timeout)
    return p.returncode, p.stdout + p.stderr
def demo_dir(d):
    notes = open(os.path.join(d, "notes.md")).read() if os.path.exists(os.path.join(d, "notes.md")) else ""
    meta = os.path.join(d, "meta.json")
    if os.path.exists(meta):
        m = json.load(open(meta))
        if m.get("demo_dir"): return m["demo_dir"]
    pkgs = set()
    for f in glob.glob(os.path.join(d, "*_test.go")):
        m = re.search(r"^package (\w+)", open(f).read(), re.M)
        if m: pkgs.add(m.group(1))
    table = {"mcap": "go/mcap", "mcap_test": "go/mcap", "ros": "go/ros", "ros_test": "go/ros", "ros1msg": "go/ros/ros1msg", "ros1msg_test": "go/ros/ros1msg"}
    for k in pkgs:
        if k in table: return table[k]
    for cand in ["go/conformance/test-read-conformance", "go/conformance/test-write-conformance"]:
        if cand in notes: return cand
    return "go/mcap"
def run_demo(d, ddir):
    demos = glob.glob(os.path.join(d, "*_test.go"))
    placed = []
    for f in demos:
        dst = os.path.join(REPO, ddir, "zz_seed_" + os.path.basename(f))
        shutil.copy(f, dst); placed.append(dst)
    names = []
    for f in demos:
        names += re.findall(r"func (Test\w+)\(", open(f).read())
    rc, out = sh(f"go test -vet=off -count=1 -run '^({'|'.join(names)})$' .", cwd=os.path.join(REPO, ddir))
    for f in placed: os.remove(f)
    return rc, out
def main():
    d = os.path.abspath(sys.argv[1]); args = sys.argv[2:]
    props = None; imp = None; skip = "--skip-verify" in args
    for i, a in enumerate(args):
        if a == "--props": props = args[i+1].split(",")
        if a == "--import-as": imp = args[i+1]
    if imp:
        dst = os.path.join("/verif/seeded", imp)
        os.makedirs(dst, exist_ok=True)
        for f in os.listdir(d):
            if f.endswith((".diff", ".go", ".md", ".json", ".mcap", ".txt")): shutil.copy(os.path.join(d, f), dst)
        d = dst
    tag = os.path.basename(d)
    if props is None: props = [tag.split("-")[0]]
    ddir = demo_dir(d)
    res = {"id": tag, "demo_dir": ddir}
    rc, out = sh("git status --porcelain --untracked-files=no", cwd=REPO)
    if out.strip(): print("REPO DIRTY, abort:", out); sys.exit(2)
    try:
        if not skip:
            rc, out = run_demo(d, ddir); res["demo_passes_unpatched"] = (rc == 0)
            if rc != 0: res["demo_unpatched_output"] = out[-1500:]
        rc, out = sh(f"git apply --3way {d}/patch.diff", cwd=REPO)
        if rc != 0:
            rc, out2 = sh(f"patch -p1 --no-backup-if-mismatch < {d}/patch.diff", cwd=REPO); out += out2
        res["patch_applies"] = (rc == 0)
        if rc != 0: res["apply_output"] = out[-800:]; raise SystemExit
        sh("git reset -q", cwd=REPO)
        if not skip:
            rc, out = sh(f"REPO={REPO} /verif/tools/baseline.sh"); res["baseline_with_patch"] = out.strip().splitlines()[0] if out.strip() else ""
            res["baseline_ok"] = (rc == 0)
            rc, out = run_demo(d, ddir); res["demo_fails_patched"] = (rc != 0)
            res["demo_patched_output"] = "\n".join([l for l in out.splitlines() if "---" in l or "Error" in l or "panic" in l][:6])
        fired = {}
        for pr in props:
            rc, out = sh(f"VERIF_REPO={REPO} /verif/check {pr} quick", cwd="/verif")
            v = [l for l in out.splitlines() if l.startswith("VIOLATION") ]
            keys = [l for l in out.splitlines() if re.match(r"^\S+:\d+: C\d\d", l)]
            und = [l for l in out.splitlines() if l.startswith("UNDECIDED")]
            fired[pr] = {"exit": rc, "violations": len(v), "reports": keys[:5], "undecided": und[:3]}
        res["checks"] = fired
    finally:
        sh("git reset -q --hard HEAD && git clean -fdq go/mcap go/ros", cwd=REPO)
    caught = [p for p, f in res.get("checks", {}).items() if f["exit"] == 1]
    res["caught_by"] = caught
    print(json.dumps(res, indent=1))
    if imp or os.path.dirname(d) == "/verif/seeded":
        mp = os.path.join(d, "meta.json")
        meta = json.load(open(mp)) if os.path.exists(mp) else {}
        meta.update({"id": tag, "breaks_property": tag.split("-")[0], "demo_dir": ddir,
                     "verified": {k: res.get(k) for k in ("demo_passes_unpatched", "patch_applies", "baseline_ok", "baseline_with_patch", "demo_fails_patched") if k in res} or meta.get("verified"),
                     "what_was_run": "tools/seedtest.py: demo on unchanged /repo (pass), git apply patch.diff, go build + tools/baseline.sh (195/195), demo (fail), ./check <prop> quick for each listed property, git checkout -- .",
                     "checks_run": res.get("checks"), "caught_by": caught,
                     "checked_at_verif_commit": subprocess.run("git -C /verif rev-parse --short HEAD", shell=True, capture_output=True, text=True).stdout.strip()})
        if "needs_to_manifest" not in meta:
            notes = open(os.path.join(d, "notes.md")).read() if os.path.exists(os.path.join(d, "notes.md")) else ""
            meta["needs_to_manifest"] = "see notes.md"
        json.dump(meta, open(mp, "w"), indent=1)
main()
