#!/bin/bash
set -u
d=$(realpath $1); wt=/tmp/wtr
[ -f /tmp/wtr-failed ] && { echo "previous step failed"; exit 1; }
export GOFLAGS= GOPROXY=off GOSUMDB=off GOTOOLCHAIN=local; unset GOWORK
(cd $wt/go/mcap && gofmt -l . ; go build ./... ) || { echo "DOES NOT BUILD"; exit 1; }
git -C $wt add -N . ; git -C $wt diff > $d/patch.diff.new && mv $d/patch.diff.new $d/patch.diff
echo "- rebased onto $(git -C /repo rev-parse --short HEAD) (fix F17: chunk indexes are matched against channels only when topics are selected); the moved filter carries the same guard." >> $d/notes.md
git -C $wt reset -q --hard; git -C $wt clean -fdq
echo "rebased $d: $(grep -c '^' $d/patch.diff) lines"
