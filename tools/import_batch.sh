#!/bin/bash
# usage: import_batch.sh <outdir> <id> (ids must be new: existing directories are overwritten) [<id>...]   e.g. import_batch.sh /tmp/mut/out5 C01-D1 C01-R1
# D*: verified with seedtest.py against the scratch worktree $REPO (default /tmp/wt2) and imported into seeded/;
# R*: copied into benign/ and run through benign_matrix.py.
set -u
out=$1; shift
export REPO=${REPO:-/tmp/wt2}
for id in "$@"; do
  p=${id%%-*}
  case "$id" in
    *-D*|*-G*|*-H*|*-J*)
      python3 /verif/tools/seedtest.py $out/$id --import-as $id --props $p > /tmp/imp-$id.log 2>&1
      python3 - "$id" <<'PY'
import json,sys
i=sys.argv[1]; s=open(f'/tmp/imp-{i}.log').read()
try:
    m=json.loads(s[s.index('{'):])
    print(i, {k:m.get(k) for k in ['demo_passes_unpatched','patch_applies','baseline_ok','demo_fails_patched','caught_by']})
except Exception as e: print(i,'ERR',s[-300:])
PY
      ;;
    *-R*|*-T*|*-U*|*-V*)
      mkdir -p /verif/benign/$id; cp $out/$id/patch.diff /verif/benign/$id/; [ -f $out/$id/notes.md ] && cp $out/$id/notes.md /verif/benign/$id/
      python3 /verif/tools/benign_matrix.py $id | grep -v "^quiet on"
      ;;
  esac
done
