#!/bin/bash
# usage: rebase_f17.sh <patchdir>   re-create patch.diff on the base that contains fix F17 (4f5f0dc):
# apply the patch at the old base, port the fix into the moved filter (automatic for the helper form), diff against the new base.
set -u
d=$(realpath $1); wt=/tmp/wtr; old=4f807a8; new=$(git -C /repo rev-parse HEAD)
git -C /repo worktree list | grep -q "$wt " || git -C /repo worktree add -q --detach $wt $old
git -C $wt reset -q --hard; git -C $wt clean -fdq; git -C $wt checkout -q --detach $old
git -C $wt apply $d/patch.diff || { echo "OLD PATCH DOES NOT APPLY"; touch /tmp/wtr-failed; exit 1; }; rm -f /tmp/wtr-failed
files=$(git -C $wt status --porcelain | awk '{print $2}')
rm -rf /tmp/wtr-files; mkdir -p /tmp/wtr-files
for f in $files; do mkdir -p /tmp/wtr-files/$(dirname $f); cp $wt/$f /tmp/wtr-files/$f; done
git -C $wt reset -q --hard; git -C $wt clean -fdq; git -C $wt checkout -q --detach $new
for f in $files; do mkdir -p $wt/$(dirname $f); cp /tmp/wtr-files/$f $wt/$f; done
f=$wt/go/mcap/indexed_message_iterator.go
sed -i -E 's/if len\(idx\.MessageIndexOffsets\) == 0 (\|\||\{)/if len(it.topics) == 0 || len(idx.MessageIndexOffsets) == 0 \1/' $f
if ! grep -q "len(it.topics) == 0 || len(idx.MessageIndexOffsets)\|len(it.topics) > 0" $f; then echo "MANUAL: fix not ported automatically"; fi
echo "edit $f if needed, then: tools/rebase_f17.sh --finish $d"
