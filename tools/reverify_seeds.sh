#!/bin/bash
# re-verify every seeded defect against the current /repo HEAD in a scratch worktree
set -u
export REPO=/tmp/seedrepo
git -C /repo worktree list | grep -q /tmp/seedrepo || git -C /repo worktree add -q --detach /tmp/seedrepo HEAD
git -C /tmp/seedrepo reset -q --hard; git -C /tmp/seedrepo checkout -q --detach "$(git -C /repo rev-parse HEAD)"
for d in /verif/seeded/C*/; do
  t=$(basename $d)
  python3 /verif/tools/seedtest.py $d --props ${t%%-*} 2>&1 | python3 -c "
import json,sys
try:
  r=json.load(sys.stdin); print(r['id'],'unpatched_ok',r.get('demo_passes_unpatched'),'applies',r.get('patch_applies'),'baseline',r.get('baseline_ok'),'demo_fails',r.get('demo_fails_patched'),'caught',r['caught_by'], (r.get('apply_output') or '')[:150].replace('\n',' '))
except Exception as e: print('$t ERR',e)
"
done
