#!/bin/bash
# usage: trymut.sh <file-in-go/mcap> <mutgen-index> <prop,prop>   (scratch worktree /tmp/wt5)
set -u
git -C /tmp/wt5 reset -q --hard; git -C /tmp/wt5 checkout -q --detach "$(git -C /repo rev-parse HEAD)"
/tmp/mutgen apply /repo/go/mcap/$1 $2 > /tmp/wt5/go/mcap/$1 || exit 2
git -C /tmp/wt5 diff --stat | tail -1
/verif/bin/mcapvet multi "$3" --repo /tmp/wt5 --verif /verif | cut -c1-${4:-500}
git -C /tmp/wt5 reset -q --hard
