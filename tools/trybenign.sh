#!/bin/bash
# usage: trybenign.sh <benign-or-seed-id> <Cxx> [grep-pattern]   full check output on a scratch worktree (/tmp/wt5) with the patch applied
set -u
d=/verif/benign/$1; [ -d "$d" ] || d=/verif/seeded/$1
git -C /repo worktree list | grep -q /tmp/wt5 || git -C /repo worktree add -q --detach /tmp/wt5 HEAD
git -C /tmp/wt5 reset -q --hard; git -C /tmp/wt5 checkout -q --detach "$(git -C /repo rev-parse HEAD)"
(cd /tmp/wt5 && git apply --3way $d/patch.diff >/dev/null 2>&1 || echo "PATCH DOES NOT APPLY"; git reset -q)
[ -n "${KEEP:-}" ] || trap 'git -C /tmp/wt5 reset -q --hard' EXIT
mkdir -p /tmp/ev2/evidence; cp /verif/known_findings.txt /tmp/ev2/; ln -sfn /verif/checker /tmp/ev2/checker
/verif/bin/mcapvet "$2" --tier quick --repo /tmp/wt5 --verif /tmp/ev2 2>&1 | grep -v "^   rule .* violated=0 " | grep -E "${3:-.}" | cut -c1-1500
